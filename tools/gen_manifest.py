#!/usr/bin/env python3
"""Generate /verif/MANIFEST.json from the table below (single source of truth)."""
import json, os, sys

HERE = os.path.dirname(os.path.dirname(os.path.abspath(__file__)))

# id -> (technique, level text, level note, design ref)
BUILT = {
    "C01": (
        "exhaustive single-component mutation of validly signed requests on the real entry point, judged by a reference verifier",
        "8 (quick) / 48 (thorough) validly signed base requests; for each, every single-component mutation is enumerated — every URI byte position x every byte http admits, insertions, deletions, respellings; every header byte position x 8 bytes; headers added/removed/duplicated/renamed; every body bit; old signature transplanted onto re-signed variants (instant, date text, scope near-misses, access key, signed list, token); all 256 single-bit flips of the provider's key; every signature digit x 15 values, truncations, extensions, all hex strings of length <= 2 — and the implementation may return Ok only if the independent reference verifier, run on the request as received with the key the provider handed out, accepts. Each mutant is judged right after the genuine request was accepted on the same thread; finally the genuine request and forgeries under its signature are validated as futures multiplexed on one thread against a Pending provider in every order of polls. Thorough adds all pairs over ~600 mutation sites on four bases.",
        "Trusted: reference verifier (refmodel::verify). Only the soundness direction is a C01 violation; other disagreements are counted in notes. Known finding path-plus-as-space matched narrowly.",
        "DESIGN.md §4 C01",
    ),
    "C03": (
        "full product of credential-scope near-misses x server configurations x instants on the real entry point, with a scripted provider",
        "Every five-part credential over 8 date variants x 8 near-misses each of region, service and terminator, against 3-5 server configurations and 3-6 instants (UTC date differing from the written date), signed correctly under its own foreign scope with a provider that hands out that key (mode A) or under the server's scope (mode B), plus credentials of 1-8 parts and every history of up to 3 validations on one thread in which the server configuration changes while a credential scoped for another configuration is presented; kind/status and the provider's observed arguments are compared with the reference verifier on every case.",
        "Trusted: reference verifier; credential bytes read as ISO-8859-1.",
        "DESIGN.md §4 C03",
    ),
    "C04": (
        "exhaustive enumeration of (server instant, offset, rendering) at nanosecond resolution on the real entry point",
        "Every whole-second offset in [-1200 s, +1200 s], +-1 ns/2 ns/1 us/1 ms around both bounds and millisecond grids within +-2 s of them, for 3-8 server instants (sub-second, leap day, month/year boundaries) and 4-14 renderings of the same instant on both carriers; each request freshly and correctly signed. Oracle: Ok iff |t-now| <= 900 s, else 403 with an empty provider log; the harness cross-checks the reference window arithmetic independently.",
        "Trusted: reference ISO parser and window arithmetic (i128 nanoseconds).",
        "DESIGN.md §4 C04",
    ),
    "C05": (
        "full product of requirement sets x header presence x signed subsets on the real entry point, every request correctly signed over its declared list",
        "64 requirement sets x letter-case styles x four ways of building them x every subset of 7 optional headers x every signed subset x {host, :authority, neither}: 1.7 M (quick) / 10 M (thorough) correctly signed requests whose only possible defect is an unsigned required header; outcome compared with the reference rules; plus every sequence of up to 4/5 add_*/remove_* operations on VecSignedHeaderRequirements against a set model, and the ready-made containers.",
        "Trusted: reference verifier's requirement rules (case-insensitive declared names, prefix match on lower-cased request header names).",
        "DESIGN.md §4 C05",
    ),
    "C07": (
        "exhaustive enumeration of wrong-signature variants with instruction-level trace comparison (forked children single-stepping themselves through the trap flag; ptrace stepper as fallback)",
        "The property's own quantifier is finite: for each (request, key) group every position 0..63 (only that character wrong; thorough: also all characters from p on wrong) is traced instruction by instruction (trap flag + SIGTRAP handler in the child; VH_C07_PTRACE=1 selects a ptrace stepper) in a forked, warmed-up child of a single-threaded tracer built with the ship profile and a byte-wise early-exit memcmp/bcmp; every trace must equal the group's reference trace in length and RIP-sequence hash; the reference is traced twice to prove the apparatus deterministic; an upper-case family and a family traced with a logger installed at Debug level are compared with their own references.",
        "Control flow only (no cache/micro-architecture); x86-64 build as compiled here; needs the x86-64 trap flag (or ptrace on own children). Hooks: none in the repository (memcmp/bcmp are overridden in the harness binary only).",
        "DESIGN.md §4 C07",
    ),
    "C08": (
        "bounded exhaustive input enumeration under catch_unwind in a supervised child process (overflow checks and debug assertions on)",
        "About 1.1 M (quick) / 12 M (thorough) cases: the C13 defect product x options x requirement sets; every byte at every position of URI and header-value templates; every two-character escape; bodies around every size boundary up to 200 kB x fills x content types; every 1- and 2-byte form body; every charset label the encoding crate knows; secrets x capacities; every C16 timestamp string; every subset of builder fields; every error shape; derivation extremes; canonicalisation helpers on degenerate and 1 MiB inputs. Any panic, hang, non-SignatureError or abnormal termination of the child is a violation.",
        "Excluded as the statement says: unescape_uri_encoding on malformed escapes; unstable internals called against their stated precondition. Inputs larger than 1 MiB and allocation failure are not explored.",
        "DESIGN.md §4 C08",
    ),
    "C11": (
        "bounded exhaustive enumeration of header multisets, signed subsets, single edits and unsigned-header perturbations on the real entry point",
        "32 k base requests (value lists over 10 values with outer/inner spaces, commas, quotes, tab, 0xE9; signed subsets; arrival orders): accepted and canonical request bytes equal to the reference's; every single edit of every signed header keeps the old signature and must be accepted iff the reference header block is unchanged; every insertion/removal/modification/rotation of unsigned headers must leave the outcome unchanged (differential, also on refused bases); a repeated signed header among 12-100 header lines; eight Host spellings signed literally, cross-presented, each with 36 well-known / near-miss unsigned headers added.",
        "Trusted: reference header normal form (space-only trimming/collapsing). Header-name case is normalised by the http crate before the library sees it.",
        "DESIGN.md §4 C11",
    ),
    "C12": (
        "full product of URL x body parameter lists x content types x options, each signed as folded, verbatim and three hybrids, on the real entry point",
        "Every pair of parameter lists (0-2 pairs over {a,b} x {1,2,empty}) x 16 content-type spellings x {off, on, on+S3} x carrier, signed F (folded), V (verbatim) and as three hybrid readings; all judged by the reference verifier; returned body/URI checked; F and V never both accepted; undecodable bodies and unknown charsets must give InvalidBodyEncoding/400; where folding does not apply every body bit flip is refused.",
        "Unspecified (only 'never both' and 'one of the two' required): media-type case variants and known non-UTF-8 charsets.",
        "DESIGN.md §4 C12",
    ),
    "C13": (
        "explicit-state precedence automaton whose every behaviour (defect vector) is replayed against the implementation",
        "The documented rule order is a 14-stage automaton (refmodel::prec); the full product of defect vectors per carrier (0.55 M quick, 8 M thorough) is enumerated, each vector materialised as a concrete request carrying exactly those defects and validated; kind, code, status, downcast, status class and provider consultation are compared with the automaton's terminal; 1 in 16 requests is cross-checked against the reference verifier; a self-calibrating message-class oracle tells apart stages that share an error kind; plus the kind->(code,status) table for every variant.",
        "Trusted: the automaton's stage order (DESIGN.md appendix A). Body-related failures are outside the documented order (C12).",
        "DESIGN.md §4 C13",
    ),
    "C14": (
        "exhaustive exploration of provider behaviours (environment answers incl. Pending and errors) per request class, and of validation histories on one provider",
        "33 request classes x every provider behaviour with up to 2 (quick) / 3 (thorough) Pending answers before readiness and before the key, 16 error shapes at either point, correct or wrong key; invariants on every execution (call once, only after Ready, never for requests that fail earlier; errors passed through unchanged or as 500; no error/wrong key/pending ever accepted; the future is polled at least 1+k+j times); plus every history of 1..3/4 validations over 20 symbols on one shared provider instance compared with what the model says for each step alone (incl. validations configured for another service), and a history through the crate's own service_for_signing_key_fn adapter.",
        "Provider wakes the task whenever it returns Pending; poll counts above the minimum are not judged.",
        "DESIGN.md §4 C14",
    ),
    "C15": (
        "full product of accepted requests (methods, versions, header multisets, body types, URI forms, carriers, provider responses) with field-by-field comparison of what is returned",
        "142 k accepted requests: returned method, version, URI, header names/values/multiplicity/per-name order, body bytes and principal/session data must equal what was submitted/supplied; 144 folded requests: body empty and returned query multiset = URL + body.",
        "Path/authority of a folded URI and the Extensions map are not constrained by the statement (recorded, not judged).",
        "DESIGN.md §4 C15",
    ),
    "C17": (
        "exhaustive search of every observable (errors, Debug/Display, log records >= debug) for every encoding of every secret",
        "3 secrets x 33 request classes x 5 provider outcomes; needles = secret, AWS4+secret, the four derived keys and the correct signature of refused requests in 7 encodings; observables = error Display/Debug, key types, provider request/response, CanonicalRequest, AuthParams, SigV4Authenticator, and every captured log record at level >= Debug.",
        "Trace-level records are counted, not searched (the statement allows them). Needles shorter than 16 bytes are not searched.",
        "DESIGN.md §4 C17",
    ),
    "C18": (
        "exhaustive histories, exhaustion of hash-map iteration orders, fresh-process first touch, and stateless DFS over thread schedules (preemption-bounded) and task interleavings of the real code",
        "Corpus of 37 requests; every history of length <= 2/3; all joint iteration orders of the crate's own maps; one fresh process per element validated first; real OS threads under a controlled scheduler (scheduling points = the crate's log records + provider events), each exploration in its own process: all schedules with <= 3 preemptions (quick) / all interleavings (thorough) of six 2-thread pairs, 3-4 threads at bound 2-3; every poll order of 2-3 multiplexed validation futures; a further exploration makes every heap allocation a scheduling point (preemption bound 1/2); identities that depend on the session token; built-in canaries must be caught on every run; recorded failing schedules are replayed twice; explorations whose executions influence each other are redone with one forked process per execution.",
        "Preemption inside a synchronous phase and inside std::sync::Once / regex's pool is not explored; the free-running pass is a supplementary sample.",
        "DESIGN.md §4 C18",
    ),
    "C19": (
        "exhaustive enumeration of duplicated authentication inputs with the valid occurrence at every position",
        "For each duplicable input (Authorization header; Credential/SignedHeaders/Signature inside it; X-Amz-Date; X-Amz-Date vs Date; security token; each X-Amz-* query parameter) 2 or 3 occurrences with the single valid one at every position, signed as received; validates iff the documented rule selects it; look-alike names in other letter cases and inputs of the carrier that is not in use are present as decoys; both carriers together refused with the provider untouched. The generator's expectation is independent of the reference verifier and cross-checked against it.",
        "Trusted: the documented selection rules as encoded in the generator.",
        "DESIGN.md §4 C19",
    ),
    "C02": (
        "bounded exhaustive enumeration of reference-signed requests and their wire spellings against the real entry point",
        "An independent SigV4 reference signer (computing the canonical form from decoded data, never from the wire) signs every logical request of six product sweeps (paths x spellings x carriers x modes; query lists x spellings; header sets x Authorization layouts; bodies x content types x options x tokens x methods; clock offsets x renderings; rich combinations) and the real sigv4_validate_request must accept each one and ask the scripted provider exactly once with the right arguments. Every case is also judged by the reference verifier, which must agree with the reference signer. Exhaustive within the listed alphabets and bounds.",
        "Trusted: reference signer/verifier (pinned to 26 AWS vectors at start-up). Known finding path-plus-as-space is matched narrowly and reported as KNOWN-FINDING. Bytes >= 0x80 can only be sent as escapes (http::Uri). Lists of more than 3 parameters / paths of more than 3 segments are outside the bound.",
        "DESIGN.md §4 C02",
    ),
    "C06": (
        "exhaustive enumeration of secrets, capacities, dates and scopes on the real key types against a reference HMAC chain",
        "Every secret length 0..140 in four fills against nine capacities (accept iff it fits, never a panic); for every accepted length the four chain keys, the read-back and all six shortcut derivations are compared with an RFC-2104 HMAC chain written independently, over special dates, 36 region/service pairs and every calendar date of 2015-2016 (quick) or 0001-9999 (thorough).",
        "Trusted: sha2's SHA-256 compression function (shared with the crate) and the reference HMAC construction (pinned by RFC 4231 and the AWS documentation example).",
        "DESIGN.md §4 C06",
    ),
    "C10": (
        "bounded exhaustive enumeration of query strings, permutations and spellings on the real canonicaliser, plus exhaustion of hash-map iteration orders",
        "Every ordered list of up to 3 (quick) / 4 (thorough) parameters over 10 names x 6 values (prefix-related names, characters sorting below '=', the signature parameter in two spellings), every combination of five spellings per element, '&&' noise, every byte in every spelling and every malformed escape is canonicalised by the real code and compared with the reference string computed from the logical multiset. Process-level randomness is owned by rebuilding the crate's own HashMap until every iteration order of its keys has been witnessed (and in fresh threads and processes) with identical output.",
        "Trusted: reference canonical query (sort by encoded name then value). Query strings are &str, so raw bytes >= 0x80 occur only inside valid UTF-8 or as escapes.",
        "DESIGN.md §4 C10",
    ),
    "C16": (
        "exhaustive enumeration of timestamp strings (field sweeps, offsets, separators, edit distance 1) against a reference ISO-8601 parser",
        "Every two-digit value of every field, every day of every month of four years, all separator combinations, every offset hh x mm, fractions of 0-12 digits and every string at edit distance 1 from six bases are parsed by the real code through the unstable API (instant and string-to-sign line compared to the nanosecond with a hand-written strict parser) and sent end to end on both carriers. Exhaustive over that corpus.",
        "Trusted: the reference parser and its three-valued answer; zones the statement leaves open (mixed separators, lower-case designators, second 60, offset hours 15-23, year 0000) are executed but only their value, not their acceptance, is judged.",
        "DESIGN.md §4 C16",
    ),
    "C09": (
        "bounded exhaustive enumeration of path strings on the real canonicaliser against a reference normal form",
        "Every path of up to 5 (quick) / 6 (thorough) segments over a 16-symbol segment alphabet (dots, escaped dots, escaped slash, empty, bad escapes, '+', '*', '~'), with and without trailing slash, in both modes, plus every byte in every spelling and every two-character escape, is run through the real canonicalize_uri_path and compared with an independently written reference normal form; idempotence is checked on every accepted path and all <=3-segment paths are also signed by the reference signer and validated end to end. This is exhaustive within the stated alphabet and bound, which is the right level for a pure string function whose defects are single misclassified bytes or segment interactions of depth <= 3.",
        "Trusted: the reference normal form in harness/refmodel (pinned to the AWS normalize-path vectors at start-up); paths longer than the bound or using segment shapes outside the alphabet are not covered; trailing slash after a final dot segment is treated as unspecified.",
        "DESIGN.md §4 C09",
    ),
}

NOT_YET = {}

# additions since the table above was written (round 4 of independent seeded changes), appended to the level text
ADDED = {
    "C01": "Bases include signed values with Latin-1 bytes and with replacement characters. Whole-element edits too: every query / path / form-body element repeated (adjacent, at the end, respelled), dropped, emptied, a lone '=' inserted. Byte-order marks, zero-width space and CR LF inserted into bodies. Field-structure edits: every signed list-valued header split at every list separator into two fields, adjacent fields of one name joined by 6 separators or swapped, each under HTTP/1.0, 1.1, 2 and 3 (the protocol version is part of every recorded request). Body mutants are also submitted as the Parts the validator returned for the genuine request combined with the mutated body. Every mutant the reference refuses is also submitted as the Parts returned for the genuine request overwritten with the mutant's method, target, headers and body. Date texts whose seconds / minutes / hours field is beyond its range, on a base stamped on second 59 with its date header unsigned. Requests with 9 999 .. 20 000 one-letter query parameters (10 001 .. 100 000 in a folded form body): a parameter appended, the last changed or dropped, the first changed. For every second mutant the implementation's own canonical request, computed with every header value flagged sensitive and the request presented as HTTP/2, must differ from the genuine request's wherever the reference's do.",
    "C03": "Nine access keys x ten session tokens (blanks, literal percent signs, non-ASCII, 4 kB) x carrier: the provider is asked for exactly those. Server configurations include a mixed-case pair and one differing from another in letter case only; near-misses include lower-cased and case-swapped values. Credentials whose correct text ends exactly at power-of-two lengths 64..65536, followed by extra parts. A key store indexed by the exact (key, token) pair holding each of the 16 subsets of the relevant pairs x every error it can answer an unknown pair with x real-looking key ids (AKIA / ASIA / AROA / AIDA) x 8 identities: refused with that error, asked exactly once. The server configured for, and the credential scoped for, every AWS region code / pseudo-region (62) and service signing name (70). Timestamps next to local midnight written with 12 offsets of either sign from 00:01 to 14:00: the credential dated with the UTC date is accepted, the one dated with the written date refused. Five-part credentials with the slash between two adjacent scope elements moved by one or two characters. Timestamps on the last second of a UTC day with fractions that a rounding reader would carry over midnight (1..13 nines, nine nines + each digit). The session-token input of the other carrier as a decoy, against a store indexed by (key, token).",
    "C04": "Each case also with X-Amz-Expires (0 .. 604800 s, signed query parameter / signed header plus an Expires header) and with or without a session token. Plus every sequence of 1..3 operations {prevalidate, validate_signature, validate_signature on a clone} x 5 server clocks on one authenticator object (unstable API), each judged alone. Renderings with fractions of 20, 49 and 309 digits; operation sequences also over 3 configurations. Every ordered pair of requests on one thread whose date texts share the wall-clock digits and a fraction of 0 / 9 / 21 / 40 digits and differ only in the zone designator. Distances at integer-type edges (+-2^31 .. 2^36 s, multiples of 2^32 s, 2^63 / 2^64 ns, 2^31 / 2^32 ms, 2^53 us), each exactly and up to 901 s to either side. Fresh / hour-old requests with a date input of the other carrier as an unsigned bystander x bodies of 0, 1 MiB + 1, 8 MiB + 1, 16 MiB + 1 (thorough 64 MiB + 1) bytes. Presigned folded requests with X-Amz-Date in the URL and in the body on opposite sides of the window x 0..10 other body x 0 / 2 / 6 other URL parameters: the URL's date counts.",
    "C05": "Plus signed-header lists as multisets (names repeated, every entry doubled, a name not sent) x 64 requirement sets x 15 presence sets x every signed subset, judged in the direction the property states; and 256 requirement sets with overlapping declarations (a name under a declared prefix, one name in two categories) x presence subsets x signed subsets. A form POST signed correctly under each of the 4 readings (folded or not, S3 or normalised path) x the server under each of the 4 option sets x 64 requirement sets x every signed subset x carrier. Every second case repeats each header as a query parameter of the same name and value. A header <prefix><c>[tag] for every header-name character c (51), unsigned and signed, under two declared prefixes. A sorted signed list of 7 names holding a near-miss of a required name (10 kinds) with or without the name itself. An unsigned mandatory header together with a defect later rules look at (malformed date, four-part credential, foreign scope, expired date): still refused as a signature mismatch.",
    "C07": "Three further request shapes carry the presented signature twice (repeated X-Amz-Signature, repeated Signature= field, stray X-Amz-Signature next to header authentication); the refusal is also traced on an authenticator assembled through the unstable builder; every traced child starts after one acceptance and 14 refusals for the same key. Three more request shapes (Host with a port; token and 12 more signed headers; folded form behind an absolute target). The refusal is also traced while another validation of the very same request (correctly signed, or a wrong guess right up to its last character) is suspended in its key provider's future. Three more traced requests whose nonce makes the expected signature begin with '00', end in '00' or begin with 'ff'. Pairs of wrong characters a multiple of 8 positions apart that differ from the right ones by the same bit mask. Two traced requests with a millisecond timestamp whose guesses are built around the signature that is right for a near-miss of the string to sign.",
    "C19": "Also with 0..9 unknown fields in front of and 0..300 between the two occurrences of a repeated Authorization parameter; repeated X-Amz-* parameters with either occurrence's name spelled with escapes. A first token of 4..64 KiB; first Authorization / date header padded by 8193 / 70000 bytes. Each X-Amz-* parameter twice among 10 .. 1000 (thorough every count 0 .. 300, up to 2000) other parameters in four layouts. The last occurrence of each parameter between a field that opens a quoted value and one that closes it (4 patterns). Two session tokens against a key store that knows the key under one of them only and answers the other with each of 14 error kinds: the first token's answer is final. Repeated query parameters also with empty (and, for X-Amz-Signature, bare) first occurrences: the empty first one counts.",
    "C02": "Header sets include an HTTP-date or stale ISO Date header, Expires, X-Amz-Expires and Content-Length next to X-Amz-Date, and seven names that are prefixes of one another. 15 secrets of special shape (beginning with 'AWS4' / 'aws4_request', one character, blanks, '/', '+', '=', a line end, non-ASCII, 100 characters) x carrier x token. 11 values containing literal, unescaped '=' in the URL and in a folded form body, both spellings, both carriers. Every value of every calendar field as the request date (every day of 2015-2016, every hour / minute / second, every year 1970..2100) x 2 renderings x carrier.",
    "C06": "Secret lengths 0..1100 and around 2^16 and 2^20 for all nine capacities. Plus every sequence of 1..3 (thorough 4) derivations on one thread over 12 secrets that are prefixes / NUL-extensions / case variants of one another x 2 dates, each judged alone. Fills beginning with the literals 'AWS4' / 'aws4_request'. Every AWS region code and pseudo-region (62) x every service signing name (70) x 2 secrets. Regions and services made of an ASCII run of every length 0..140 followed by 2-, 3- and 4-byte characters.",
    "C08": "Plus 45 request targets of every form (origin, absolute, authority, asterisk, empty) x form bodies x content types x all four option sets, and every empty / one-byte / two-byte value of Content-Type parameters and Authorization fields; server clocks and request dates at the edges of the time types. SignedHeaders lists of 10..104 entries differing in case only, in structured arrangements, rotations and fixed shuffles. Authorization headers made of every sequence of up to 4 (5) fields over ten kinds, with the logger formatting. The child runs under a 12 GiB address-space limit and a wall-clock limit (unbounded allocation and a case that never returns are violations, not machine failures). Requests with 24574 / 24575 / 24576 distinct header names (the most http admits) and 32700 values of one name, plain and as folded form POSTs with Content-Length. An ASCII run of every length 0..300 followed by 2-, 3- and 4-byte characters in each of 11 text inputs, once plausible and once made to be refused. The request-target x form-body sweep under HTTP/1.0, 1.1, 2 and 3, with and without a Host header. Clipped-text alignment: ASCII runs of every length 0..300 and within 24 of each power of two 512..65536 followed by bytes >= 0x80 / raw UTF-8, in 8 positions of the authentication headers, counted from the start of the text and of the whole header value.",
    "C09": "Plus paths behind a first segment padded to 47 lengths (0..5000 bytes) canonicalised in both modes back to back in both orders, and every ordered pair over 78 related (path, mode) symbols on one thread; first segments of 10 000 .. 200 000 bytes (plain, to-be-escaped, escaped) followed by dot-segment tails; the end-to-end path sweep also with folded form bodies. 11 methods x 5 request targets ('*' among them). 8 paths whose normal form differs between the modes x both modes x the server configured for every AWS region (62) x service signing name (70, the S3 family included) x carrier. Climbing, plain and relative paths with an ASCII run of every length 0..300 followed by 2-, 3- and 4-byte characters, both modes. Every pair of adjacent escapes %XX%YY (65 536) inside a segment and as a segment, both modes. Every two and three letters of the segment alphabet written together as one segment, alone / last / in the middle, both modes. 8 dot-segment tails behind 0 .. 300, ~512, 1000, ~4096 and 10 000 kept segments, and a climb back over all of them, both modes.",
    "C10": "Plus every ordered pair over 58 related query strings (prefixes, case / escape / separator variants, long strings differing at the end) back to back on one thread; the end-to-end sweep splits every list between URL and folded form body. Twelve folded form bodies with a raw byte-order mark, zero-width marks, NUL or line ends. 30 folded form bodies of 65 000 .. 1 048 577 bytes that are two pairs and otherwise '&' runs. 52 folded bodies (repeated as URL queries) with entity-like separators ('&amp;', '&#38;', ';', ...). End-to-end lists also behind absolute-form request targets with and without a path.",
    "C11": "Plus a form POST signing 11 entity / framing / payload-digest headers under all four option sets: as signed, 8 replacement values, an added value and removal of each (incl. Cookie / Accept / Cache-Control with two values). Two or three signed names sharing a prefix and parting ways at every ordered pair over 21 header-name characters (all 15 punctuation marks), 3 shapes, sent in lower / upper case, both carriers. Every third refused edit is also applied to the Parts the validator returned for the base request. Unsigned bystanders named like every leading fragment of each declared prefix / required name leave a valid request valid.",
    "C12": "The body-coverage section runs under all four option sets with no / signed / unsigned declared X-Amz-Content-Sha256 and UNSIGNED-PAYLOAD, with replaced and emptied bodies; 27 form bodies of 65-200 kB with small parameters must be folded; every refused undecodable body is followed on the same thread by a correctly signed folded request; 12 degenerate form bodies. Twelve bodies with a raw byte-order mark and other special characters. Presigned folded requests with each X-Amz-* parameter twice (good in the URL and bad in the body, or the reverse) x 0..10 other body x 0 / 2 / 6 other URL parameters x token: the URL's value counts. All-ASCII bodies the declared charset cannot decode (any body under the WHATWG replacement labels, an ESC that starts no sequence under iso-2022-jp) are refused as InvalidBodyEncoding. Every third case of the main product carries accurate, signed Content-Length / Content-MD5 / X-Amz-Content-Sha256 headers. Form fields with a meaning in HTML form submission (_charset_ naming other encodings, isindex, _method) are ordinary parameters. ASCII runs ending next to each of 1 KiB .. 48 KiB followed by 2-, 3- and 4-byte characters.",
    "C13": "The product has a session-token dimension and date near-misses (well-formed + trailing characters, cut short, expired / future by half a second); every vector with at most two defects is validated right after the fully valid request on the same thread. Defective paths combined with unknown form charsets / undecodable bodies are refused for their path. The missing-parameter dimension also with what is missing (or all four) present in the other carrier's spelling as a decoy. Credential-date look-alikes (leading zero, plus sign, a blank in place of a zero pad) are values of the defect lattice. 11 methods x 6 folded form bodies carrying a rule-4 / 5 / 7 defect, a whole carrier or nothing wrong x with / without an Authorization header. The header-carrier product also with an empty / bare X-Amz-Algorithm parameter as the second carrier.",
    "C14": "Every request class also with a session token; four classes with a folded form body. Two classes whose signature is valid under the all-zero / all-0xFF key. Five more classes at the edges of the freshness window at sub-second resolution (timestamps written with fractions). Three classes whose scope date is a look-alike of the right one. An io::Error of each of the 36 stable ErrorKinds, boxed directly and wrapped as SignatureError::IO, as the call's answer and as the readiness error. Three classes that declare a day of validity through X-Amz-Expires (expired, valid, future).",
    "C15": "Body lengths 11 .. 65537 bytes; the whole product once per logger maximum level (quick: Off, Debug, Trace; thorough: all six); four request forms incl. an absolute-form target without a Host header and ':authority' signed; every second request with a second Authorization / X-Amz-Security-Token header. Folded requests carry accurate Content-Length / Content-MD5 / Content-Encoding / X-Amz-Content-Sha256 headers. Three request targets without a path (authority-form, absolute-form without path, asterisk-form) x methods x versions x body types x options. Folded requests over three more paths with empty / dot segments (one beginning with '//'): the returned path has the normal form of the submitted one under the server's mode. The plain folded path with the form in UTF-8, UTF-16LE and UTF-16BE. Session data holding the 24 global condition keys IAM itself defines, with and without a session token. A fifth header multiset of eight signed method- / host- / target-override headers.",
    "C16": "Plus every ordered pair over ~70 related strings (well-formed timestamps and their look-alikes) parsed back to back on one thread, and the full product of boundary values of month/day x hour x minute x second x zone. Validations differing only in the timestamp multiplexed on one thread in every order of polls. Five timestamps followed by one of 10 separators and a second timestamp (itself once or twice, or another one). Timestamps with each character written as a percent-escape and with truncated escapes appended. Every corpus string also next to a Date header holding a well-formed fresh timestamp. Sequences A, B, A of timestamps whose instants are 2^16, 2^31, 2^32, 2 x 2^32, 2^33 seconds apart, evaluated with nothing else running in the process.",
    "C17": "Refused key constructions (capacity one short, stray newline, small capacities, long input), shortcut derivations and the records logged meanwhile are observables too; the signature that would have been accepted for a refused request is also searched in every later validation's observables; a provider error whose Debug (not Display) shows the key record; the authenticator rendered again after prevalidate / validate_signature ran on it. Wrong signatures with request and server clock on different sides of a day / month / leap-day / year boundary. The key answered together with each of 7 identities (user, assumed role, federated user, root, service, canonical user, user + role) by a store indexed by the access key alone. A run of 2^16 + 300 (thorough 2^20 + 300) refusals with ever different wrong signatures in one process, every error and record at Debug level or above searched for the correct signature. 7 signatures made with the right key over near-misses of the string to sign (trailing newline / CR LF / blank / NUL, CR LF line ends, last character missing, lower-cased). 89 placeholders of message-template syntaxes ({expected}, ${signature}, %(key)s, ...) presented as the signature.",
    "C18": "The corpus includes requests under server clocks 10 minutes apart (both edges of each window) and under other server configurations, and pairs of equally long large bodies with different content validated back to back, and four other renderings of the timestamp. Every sequence of up to 2 (thorough 3) operations x 3 configurations x 5 clocks on one authenticator object. Every sequence of up to 4 (5) steps over {validate one of three requests, add_* / remove_* x 3 categories x 2 spellings} on ONE VecSignedHeaderRequirements object, each validation judged by the reference for what is declared at that moment. Requests on and next to both window edges against a provider that really takes 1.1 / 2.1 (3.1) s: same outcome as with one that answers at once. A history of 2^16 + 300 (thorough 2^18 + 300) validations cycling through the corpus, each outcome equal to the fresh-process outcome. Requests on either side of midnight UTC in the corpus and in two thread-schedule jobs; a failing schedule that is not reproducible in-process is re-explored with one forked process per execution. A run of 2^16 + 300 (thorough 2^17 + 300) requests on one fresh thread, each with a never-seen unsigned header name under a declared prefix, each refused like the first.",
}
TWICE = ["C01", "C02", "C03", "C04", "C05", "C06", "C09", "C10", "C11", "C12", "C13", "C14", "C16", "C19"]
AMBIENT = " The whole exploration is carried out twice: (A) no logger output, providers answering at once; (B) a logger at Trace level (record arguments evaluated, Debug-and-above records formatted), the standard provider strict / not ready at once / answering late, each option that cannot matter for the request (S3 mode, form folding) switched the other way, unsigned bystander headers added where absent (ten fixed ones with a meaning elsewhere — X-Amz-Expires, X-Amz-Content-Sha256, an accurate or zero Content-Length, Content-Encoding, Transfer-Encoding, X-Forwarded-*, X-HTTP-Method-Override — six rotating out of thirty standard request headers, and Connection / Trailer / Vary naming the request's other headers), every header value flagged sensitive for a third of the requests, and two thirds of the origin-form request targets rewritten in absolute form and presented as HTTP/2 or HTTP/3."
for _pid in list(BUILT):
    tech, text, note, ref = BUILT[_pid]
    if _pid in ADDED:
        text = text.rstrip() + " " + ADDED[_pid]
    if _pid in TWICE:
        text = text.rstrip() + AMBIENT
    BUILT[_pid] = (tech, text, note, ref)


def main():
    props = [json.loads(l) for l in open(os.path.join(HERE, "properties.jsonl"))]
    checks = []
    na = []
    for p in props:
        pid = p["id"]
        if pid in BUILT:
            tech, text, note, ref = BUILT[pid]
            checks.append({
                "property_id": pid,
                "quick_cmd": f"./check {pid} quick",
                "thorough_cmd": f"./check {pid} thorough",
                "evidence_file": f"/verif/evidence/{pid}.json",
                "replay_cmd_template": f"./check {pid} --replay {{path}}",
                "engine": "vh",
                "level_claimed": {"category": "model_checking", "text": text, "design_ref": ref},
                "level_note": note,
                "technique": tech,
            })
        else:
            na.append({"property_id": pid, "reason": NOT_YET.get(pid, "check designed (DESIGN.md §4) but not built yet in this round; not claimed until it runs green on the repaired tree")})
    m = {
        "version": 1,
        "setup_cmd": "./check setup",
        "hooks": {
            "guard": "unstable",
            "enable": "the harness depends on /repo with the crate's pre-existing cargo feature `unstable` (path dependency, features=[\"unstable\"]); no source hooks were added to the repository",
            "baseline_off_cmd": "cd /repo && (cargo nextest run --workspace --offline --no-fail-fast || cargo test --workspace --lib --offline --no-fail-fast)",
            "source_commits": [],
            "add_only": True,
        },
        "engines": [
            {"name": "vh", "path": "harness/vh", "serves_properties": sorted(BUILT.keys()),
             "kind_free_text": "Rust harness: stable-index enumerators swept over all cores, deviation-bounded chooser, history BFS, log-seam thread scheduler, ptrace instruction stepper; drives the real crate (feature `unstable`) against the independent reference model in harness/refmodel"},
        ],
        "checks": checks,
        "not_applicable": na,
        "notes": "Exit codes: 0 held, 1 violation (VIOLATION line), 2 machinery error. KNOWN_FINDINGS.txt lists recorded and fixed defects.",
    }
    if not na:
        del m["not_applicable"]
    json.dump(m, open(os.path.join(HERE, "MANIFEST.json"), "w"), indent=1)
    print("MANIFEST.json:", len(checks), "checks,", len(na), "not applicable")

if __name__ == "__main__":
    main()
