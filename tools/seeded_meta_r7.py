#!/usr/bin/env python3
"""Write /verif/seeded/<id>-r7/meta.json from verify-demo.json, the baseline log and a regression log.

usage: tools/seeded_meta_r4.py <baseline-log> <current-log> <baseline-commit>
Both logs have lines '<dir> own=<ID> exit=<n> <first violation line>'.
"""
import json, os, re, sys

needs = {
 "C01": "a signed header value with bytes that are not UTF-8 (or the replacement character itself): values are normalised through from_utf8_lossy, so different byte strings share one canonical line",
 "C02": "form folding on + form content type + query-string authentication: the parameter map is re-derived from the rebuilt URI, which leaves out X-Amz-Signature",
 "C03": "query-string authentication with a session token containing a space (%20 or '+'): spaces are turned into '+' before the provider is asked",
 "C04": "a timestamp with a non-zero offset whose conversion to UTC crosses midnight: the day carry is added with the wrong sign (instant off by two days)",
 "C05": "a requirement set that declares prefixes only: a fast path for 'nothing to enforce' forgets the prefixes",
 "C06": "a date in the first / last days of a year whose ISO week-numbering year differs from the calendar year (%G)",
 "C07": "more than ten consecutive refusals for one access key in the process: further refusals compare the first 16 characters with ==",
 "C08": "an empty access key in an otherwise valid credential: a new builder validation makes build() fail under an expect()",
 "C09": "form folding + form content type + a path whose canonical form has another length than the raw path: the canonical path buffer is cut back to the raw length",
 "C10": "form folding with a body pair equal to a URL pair: the echo is dropped instead of listed twice",
 "C11": "HTTP/2 or HTTP/3 request with a signed Cookie header occurring twice: values joined by '; ' instead of ','",
 "C12": "form folding with a non-empty body that holds no parameter ('&', '&&'): not folded, hashed verbatim",
 "C13": "a timestamp less than one second outside the window (fractional request or server time): skew measured in truncated whole seconds",
 "C14": "form folding + form body + a wrong signature: the request is validated a second time as sent, the provider is called twice",
 "C15": "an accepted request with Authorization or X-Amz-Security-Token repeated: remove()+insert() on the returned HeaderMap drops all but the first value",
 "C16": "a timestamp longer than 35 characters (fraction of 10+ digits with a numeric offset, or trailing characters after a complete 35-character timestamp): cut to 35 characters before parsing",
 "C17": "(unstable API) Debug of an authenticator after validate_signature refused a wrong signature: a cached expected_signature field and a derived Debug",
 "C18": "a timestamp that is not in the 16-character compact form validated in a process where a compact one came first (or vice versa): one OnceLock shared by two generic instantiations",
 "C19": "a repeated X-Amz-* query parameter whose occurrences are spelled differently (escaped hyphen): values grouped by raw spelling in BTreeMap order",
}

def load(path):
    out = {}
    for line in open(path):
        m = re.match(r"(C\d\d-r7) own=(C\d\d) exit=(\d+)\s*(.*)", line)
        if m:
            out[m.group(1)] = (int(m.group(3)), m.group(4).strip())
    return out

base = load(sys.argv[1])
cur = load(sys.argv[2])
commit = sys.argv[3]
root = '/verif/seeded'
for pid in sorted(needs):
    d = os.path.join(root, pid + '-r7')
    demo = json.load(open(os.path.join(d, 'verify-demo.json')))
    b = base.get(pid + '-r7', (None, ''))
    c = cur.get(pid + '-r7', (None, ''))
    meta = {
        "breaks_property": pid,
        "round": 7,
        "author": "independent sub-agent given only the property text, a scratch worktree and one-line descriptions of the six earlier changes to avoid",
        "needs_to_manifest": needs[pid],
        "files": {"patch": "patch.diff", "demonstration": "demo/tests/seeded_demo.rs", "write_up": "SEEDED.md"},
        "confirmed_by_me": {
            "suite_with_change": "cargo nextest run --offline --lib: 72 passed",
            "demo_with_change_exit": demo.get("demo_exit_with_change"),
            "demo_without_change_exit": demo.get("demo_exit_without_change"),
            "how": "ROUND=7 PHASE=A tools/seeded_verify.sh in the agent's scratch worktree; then the patch applied to a scratch copy of the repository and the property's own quick check run from the harness as committed when the agents were launched (%s) and from the current one" % commit,
        },
        "own_property_check": {
            "baseline_%s_exit" % commit: b[0],
            "current_exit": c[0],
            "first_violation_current": c[1],
        },
    }
    json.dump(meta, open(os.path.join(d, 'meta.json'), 'w'), indent=1)
    print(pid, b[0], c[0])
